"""Fact loading, CFG, dominance, value-provenance expressions.

Everything here is a static analysis of the MIR facts written by driver/.
Nothing executes library code.
"""
import json
import os, re, sys
from collections import defaultdict, deque

# ---------------------------------------------------------------------------
# loading


class Facts:
    """All fact files of one configuration (3 crates)."""

    def __init__(self, config, crates):
        self.config = config
        self.crates = crates  # name -> raw dict
        self.fns = {}  # path -> Fn
        self.adts = {}
        self.impls = []
        self.unsafe_sites = []
        for cname, c in crates.items():
            for f in c["fns"]:
                fn = Fn(self, cname, f)
                self.fns[cname + "::" + f["path"]] = fn
            for a in c["adts"]:
                a["crate"] = cname
                self.adts[cname + "::" + a["path"]] = a
            for i in c["impls"]:
                i["crate"] = cname
                self.impls.append(i)
            for u in c["unsafe_sites"]:
                u["crate"] = cname
                self.unsafe_sites.append(u)
        # children (closures / coroutine bodies) by parent
        self.children = defaultdict(list)
        for k, fn in self.fns.items():
            if fn.raw["parent"]:
                self.children[fn.crate + "::" + fn.raw["parent"]].append(fn)

    def fn(self, crate, path):
        return self.fns.get(crate + "::" + path)

    def find(self, crate=None, pred=None, name=None, path_re=None):
        out = []
        for k, fn in self.fns.items():
            if crate and fn.crate != crate:
                continue
            if name and fn.name != name:
                continue
            if path_re and not re.search(path_re, fn.path):
                continue
            if pred and not pred(fn):
                continue
            out.append(fn)
        return out

    def adt(self, crate, path):
        return self.adts.get(crate + "::" + path)

    def local_callee(self, caller, term):
        """Fn object for a call terminator if the (resolved) callee is local to the workspace."""
        for key in ("resolved", "callee"):
            p = term.get(key)
            if not p:
                continue
            for cname in (caller.crate,) + tuple(self.crates):
                f = self.fns.get(cname + "::" + p)
                if f is not None:
                    return f
            # cross-crate paths are printed with the crate name in front
            m = re.match(r"^(eyeball\w*)::(.*)$", p)
            if m:
                f = self.fns.get(m.group(1) + "::" + m.group(2))
                if f is not None:
                    return f
        return None


# Home module of every (uniquely named) type of the three crates on the pinned tree. The modules are private (`mod shared;`
# + `pub use`), so moving a type to another private module is a behaviour-preserving refactoring; the rules name types by
# their home path, and a type found elsewhere is mapped back to it when the facts are loaded.
TYPE_HOME = {
    "eyeball": ["lock::SyncLock", "lock::AsyncLock", "read_guard::ObservableReadGuard", "shared::SharedObservable",
                "shared::WeakObservable", "shared::ObservableWriteGuard", "state::ObservableState", "state::ObservableStateMetadata",
                "subscriber::async_lock::AsyncSubscriberState", "subscriber::Subscriber", "subscriber::Next", "unique::Observable"],
    "eyeball_im": ["reusable_box::ReusableBoxFuture", "reusable_box::CallOnDrop", "vector::entry::ObservableVectorEntry",
                   "vector::entry::EntryIndex", "vector::entry::ObservableVectorEntries", "vector::subscriber::VectorSubscriber",
                   "vector::subscriber::VectorSubscriberStream", "vector::subscriber::VectorSubscriberStreamState",
                   "vector::subscriber::VectorSubscriberBatchedStream", "vector::subscriber::ReusableBoxRecvFuture",
                   "vector::transaction::ObservableVectorTransaction", "vector::transaction::ObservableVectorTransactionEntry",
                   "vector::transaction::ObservableVectorTransactionEntries", "vector::ObservableVector", "vector::BroadcastMessage",
                   "vector::OneOrManyDiffs", "vector::VectorDiff"],
    "eyeball_im_util": ["vector::filter::Filter", "vector::filter::FilterMap", "vector::filter::FilterImpl", "vector::filter::FilterImplProj",
                        "vector::head::Head", "vector::head::HeadProj", "vector::head::EmptyLimitStream", "vector::ops::VectorDiffFamily",
                        "vector::ops::VecVectorDiffFamily", "vector::skip::Skip", "vector::skip::SkipProj", "vector::skip::EmptyCountStream",
                        "vector::sort::Sort", "vector::sort::SortBy", "vector::sort::SortByKey", "vector::sort::SortImpl",
                        "vector::tail::Tail", "vector::tail::TailProj", "vector::traits::BatchedVectorSubscriber"],
}


def _rehome_types(text, crate):
    """map types that were moved to another private module back to their home path (textual, whole path segments)."""
    homes = {h.split("::")[-1]: h for h in TYPE_HOME.get(crate, [])}
    try:
        d = json.loads(text)
    except ValueError:
        return None, text
    count = defaultdict(list)
    for a in d.get("adts", []):
        count[a["path"].split("::")[-1]].append(a["path"])
    moved = [(ps[0], homes[n]) for n, ps in count.items() if n in homes and len(ps) == 1 and ps[0] != homes[n]]
    if not moved:
        return d, text
    for actual, home in moved:
        text = re.sub(r"(?<![\w])%s(?![\w])" % re.escape(actual), home, text)
    return json.loads(text), text


def load_config(facts_dir, config, nonce=None):
    crates = {}
    for fn in sorted(os.listdir(facts_dir)):
        m = re.match(r"^(eyeball\w*)\.%s\.json$" % re.escape(config), fn)
        if not m:
            continue
        d, _ = _rehome_types(open(os.path.join(facts_dir, fn)).read(), m.group(1))
        if d is None:
            raise RuntimeError("unreadable fact file %s" % fn)
        if nonce is not None and d.get("nonce") != nonce:
            raise RuntimeError("stale fact file %s (nonce %r != %r)" % (fn, d.get("nonce"), nonce))
        crates[m.group(1)] = d
    F = Facts(config, crates)
    if not os.environ.get("VERIF_NO_SPLICE"):
        splice_helper_type_methods(F)
    return F


def splice_helper_type_methods(F):
    """normalisation: private inherent methods of a *private* type (e.g. helper methods put on `ObservableStateMetadata`) are spliced
    into the functions that call them, and dropped as functions of their own. Whether a few statements live in the method of the
    public-facing type or in a method of the private struct it wraps is not a difference any rule should see; the roles (notify,
    close, poll leaf ..) stay with the methods of the type the rest of the crate calls."""
    targets = set()
    for g in F.fns.values():
        st = (g.raw.get("self_ty") or "").split("<")[0]
        adt = F.adts.get(g.crate + "::" + st)
        if g.crate != "eyeball" or not st.startswith("state::"):
            continue   # the roles of the other crates are anchored on methods of private types themselves (projections, EntryIndex)
        if adt is None or adt.get("vis") == "pub" or g.raw.get("impl_trait") or g.kind in ("closure", "coroutine") or g.vis in ("pub", "crate") or not g.raw.get("built"):
            continue
        targets.add(g.key)
    if not targets:
        return
    from .inline import inline_raw
    spliced = False
    for caller in list(F.fns.values()):
        if caller.key in targets or not caller.raw.get("built"):
            continue
        b = caller.built
        hit = False
        for blk in b.blocks:
            t = blk["term"]
            if t["k"] == "call":
                c = F.local_callee(caller, t)
                if c is not None and c.key in targets:
                    hit = True
                    break
        if not hit:
            continue
        raw = inline_raw(F, caller, (lambda c: c.key not in targets), 3, frozenset(), False)
        if raw is not None:
            caller.raw = dict(caller.raw, built=raw)
            caller._built = None
            spliced = True
    if spliced:
        for k in targets:
            g = F.fns.pop(k, None)
            if g is not None and g.raw.get("parent"):
                pk = g.crate + "::" + g.raw["parent"]
                if pk in F.children and g in F.children[pk]:
                    F.children[pk].remove(g)
        F.__dict__.pop("_inline_cache", None)


# ---------------------------------------------------------------------------
# functions / bodies


class Fn:
    def __init__(self, facts, crate, raw):
        self.facts = facts
        self.crate = crate
        self.raw = raw
        self.path = raw["path"]
        self.name = raw["name"]
        self.kind = raw["kind"]
        self.vis = raw["vis"]
        self.span = raw["span"]
        self._built = None
        self._elab = None

    @property
    def key(self):
        return self.crate + "::" + self.path

    @property
    def built(self):
        if self._built is None and self.raw["built"]:
            self._built = Body(self, self.raw["built"], "built")
        return self._built

    @property
    def elab(self):
        if self._elab is None and self.raw["elab"]:
            self._elab = Body(self, self.raw["elab"], "elab")
        return self._elab

    @property
    def file(self):
        return self.span["file"]

    def loc(self, span=None):
        s = span or self.span
        if s.get("exp"):
            return "%s:%d" % (s["cfile"], s["cline"])
        return "%s:%d" % (s["file"], s["line"])

    def __repr__(self):
        return "<Fn %s>" % self.key


def place_str(p):
    s = "_%d" % p["l"]
    for e in p["proj"]:
        if e == "deref":
            s = "(*%s)" % s
        elif "f" in e:
            s = "%s.%s" % (s, e["name"])
        elif "dc" in e:
            s = "(%s as %s)" % (s, e["dc"])
        elif "idx" in e:
            s = "%s[_%d]" % (s, e["idx"])
        else:
            s = "%s{?}" % s
    return s


def _map_places_rv(rv, f):
    rv = dict(rv)
    k = rv["k"]

    def op(o):
        if o["k"] in ("copy", "move"):
            o = dict(o)
            o["place"] = f(o["place"])
        return o
    if k == "use":
        rv["op"] = op(rv["op"])
    elif k in ("ref", "raw", "discr", "len"):
        if "place" in rv:
            rv["place"] = f(rv["place"])
    elif k == "bin":
        rv["l"], rv["r"] = op(rv["l"]), op(rv["r"])
    elif k in ("un", "cast", "repeat"):
        rv["x"] = op(rv["x"])
    elif k == "agg":
        rv["ops"] = [op(o) for o in rv["ops"]]
    return rv


def forward_references(raw):
    """Reference forwarding: a local with a single definition `_x = &[mut] P` (or a single plain copy/move of such a
    reference) is only a name for the place P; every occurrence of `(*_x).rest` is rewritten to `P.rest`. Destructuring a
    struct behind a reference into locals, binding `let v = &mut self.field`, and the parameter passing of the virtual
    inliner then leave the places the rules look at unchanged. Sound for the place identities the rules use: P must not
    contain an index projection, and every local on P's path must itself be single-assignment (or an unassigned argument),
    so the path denotes the same memory wherever `_x` is live (the borrow checker keeps it alive and unmoved)."""
    blocks = raw["blocks"]
    ndefs = defaultdict(int)
    single = {}
    for b in blocks:
        for s in b["stmts"]:
            if s["k"] == "assign":
                p = s["place"]
                if not p["proj"]:
                    ndefs[p["l"]] += 1
                    single[p["l"]] = s["rv"]
        t = b["term"]
        if t["k"] == "call" and not t["dest"]["proj"]:
            ndefs[t["dest"]["l"]] += 1
            single[t["dest"]["l"]] = None
        if t["k"] == "yield" and t.get("resume_arg") and not t["resume_arg"]["proj"]:
            ndefs[t["resume_arg"]["l"]] += 2
    argc = raw["arg_count"]
    locs = raw["locals"]

    def stable(l):
        return (0 < l <= argc and ndefs[l] == 0) or (l > argc and ndefs[l] == 1) or l == 0 and ndefs[l] <= 1

    amap = {}
    for l, rv in single.items():
        if rv is None or ndefs[l] != 1 or l <= argc:
            continue
        if rv["k"] == "ref":
            P = rv["place"]
            if any(isinstance(e, dict) and ("idx" in e or not ("f" in e or "dc" in e)) for e in P["proj"]):
                continue
            if not stable(P["l"]):
                continue
            amap[l] = ("ref", P)
        elif rv["k"] == "use" and rv["op"]["k"] in ("copy", "move") and not rv["op"]["place"]["proj"]:
            src = rv["op"]["place"]["l"]
            ty = str(locs[l].get("ty", "")) if l < len(locs) else ""
            if ty.startswith("&") and stable(src) and src != l:
                amap[l] = ("same", src)
    if not amap:
        return raw

    def canon(p, depth=0):
        if depth > 12:
            return p
        a = amap.get(p["l"])
        if a is None:
            return p
        if a[0] == "same":
            return canon({"l": a[1], "proj": p["proj"]}, depth + 1)
        if p["proj"] and p["proj"][0] == "deref":
            P = canon(a[1], depth + 1)
            return canon({"l": P["l"], "proj": list(P["proj"]) + list(p["proj"][1:])}, depth + 1)
        return p

    out_blocks = []
    for b in blocks:
        stmts = []
        for s in b["stmts"]:
            if s["k"] == "assign":
                s = dict(s)
                if s["place"]["proj"]:
                    s["place"] = canon(s["place"])
                s["rv"] = _map_places_rv(s["rv"], canon)
            elif s["k"] == "set_discr":
                s = dict(s)
                s["place"] = canon(s["place"])
            stmts.append(s)
        t = dict(b["term"])
        k = t["k"]

        def op(o):
            if o["k"] in ("copy", "move"):
                o = dict(o)
                o["place"] = canon(o["place"])
            return o
        if k == "call":
            t["args"] = [op(a) for a in t["args"]]
            if t["dest"]["proj"]:
                t["dest"] = canon(t["dest"])
        elif k == "switch":
            t["on"] = op(t["on"])
        elif k == "drop":
            t["place"] = canon(t["place"])
        elif k == "assert":
            t["cond"] = op(t["cond"])
        out_blocks.append({"cleanup": b["cleanup"], "stmts": stmts, "term": t})
    raw = dict(raw)
    raw["blocks"] = out_blocks
    return raw


def normalise_swap(raw):
    """`let mut old = new; mem::swap(place, &mut old);` is `let old = mem::replace(place, new);`: the swap with a local that was just
    initialised from an operand is rewritten into the replace it stands for, so the rules see one idiom."""
    blocks = raw["blocks"]
    if not any(b["term"]["k"] == "call" and (b["term"].get("callee") or "") == "std::mem::swap" for b in blocks):
        return raw
    ndefs = defaultdict(int)
    defs = {}
    for bi, b in enumerate(blocks):
        for si, s in enumerate(b["stmts"]):
            if s["k"] == "assign" and not s["place"]["proj"]:
                ndefs[s["place"]["l"]] += 1
                defs[s["place"]["l"]] = (bi, si, s["rv"])
        t = b["term"]
        if t["k"] == "call" and not t["dest"]["proj"]:
            ndefs[t["dest"]["l"]] += 1
            defs[t["dest"]["l"]] = (bi, None, None)
    argc = raw["arg_count"]
    changed = False
    new_locals = None
    new_blocks = [dict(b, stmts=list(b["stmts"])) for b in blocks]
    for bi, b in enumerate(new_blocks):
        t = b["term"]
        if not (t["k"] == "call" and (t.get("callee") or "") == "std::mem::swap" and len(t["args"]) == 2):
            continue
        for ai in (1, 0):
            a = t["args"][ai]
            if a.get("k") not in ("move", "copy") or a["place"]["proj"]:
                continue
            cur = a["place"]["l"]
            L = None
            for _ in range(4):   # `_6 = &mut *_7; _7 = &mut _3` (two-phase reborrow)
                d = defs.get(cur)
                if not d or ndefs[cur] != 1 or d[2] is None or d[2]["k"] != "ref":
                    break
                pl = d[2]["place"]
                if not pl["proj"]:
                    L = pl["l"]
                    break
                if pl["proj"] == ["deref"]:
                    cur = pl["l"]
                    continue
                break
            if L is None:
                continue
            dl = defs.get(L)
            if L <= argc or ndefs[L] != 1 or not dl or dl[2] is None:
                continue
            nb = new_blocks[dl[0]]
            if dl[2]["k"] == "use":
                init_op = dl[2]["op"]
                # rewrite: L = replace(other, init_op); drop the initialisation of L
                nb["stmts"][dl[1]] = {"k": "nop"}
            else:
                # initialised by an rvalue that is not a plain operand (`let mut old = State::Recv;`): the initial value moves to a
                # fresh temporary, which becomes the replace's second argument
                new_locals = list(new_locals) if new_locals is not None else list(raw["locals"])
                tl = len(new_locals)
                new_locals.append(dict(raw["locals"][L], name=None, user=False))
                nb["stmts"][dl[1]] = dict(nb["stmts"][dl[1]], place={"l": tl, "proj": []})
                init_op = {"k": "move", "place": {"l": tl, "proj": []}}
            b["term"] = dict(t, callee="std::mem::replace", resolved="std::mem::replace", args=[t["args"][1 - ai], init_op], dest={"l": L, "proj": []},
                             extra=dict(t.get("extra") or {}, full="std::mem::replace"))
            changed = True
            break
    if not changed:
        return raw
    out = dict(raw)
    out["blocks"] = new_blocks
    if new_locals is not None:
        out["locals"] = new_locals
    return out


class Body:
    def __init__(self, fn, raw, phase):
        self.fn = fn
        if os.environ.get("VERIF_NO_FORWARD") != "1":
            raw = normalise_swap(raw)
            raw = forward_references(raw)
        self.raw = raw
        self.phase = phase
        self.blocks = raw["blocks"]
        self.locals = raw["locals"]
        self.arg_count = raw["arg_count"]
        self.n = len(self.blocks)
        self._succ = None
        self._pred = None
        self._dom = None
        self._defs = None
        self._expr_cache = {}

    # -- CFG ---------------------------------------------------------------
    def term(self, b):
        return self.blocks[b]["term"]

    def is_cleanup(self, b):
        return self.blocks[b]["cleanup"]

    def normal_succ(self, b):
        t = self.term(b)
        k = t["k"]
        if k == "goto":
            return [t["target"]]
        if k == "switch":
            out = []
            for v, bb in t["targets"]:
                if bb not in out:
                    out.append(bb)
            if t["otherwise"] not in out:
                out.append(t["otherwise"])
            return out
        if k in ("call",):
            return [t["target"]] if t["target"] is not None else []
        if k in ("drop", "assert"):
            return [t["target"]]
        if k == "false_edge":
            return [t["real"]]
        if k == "false_unwind":
            return [t["real"]]
        if k == "yield":
            return [t["resume"]]
        return []

    def unwind_succ(self, b):
        t = self.term(b)
        u = t.get("unwind")
        out = [u] if isinstance(u, int) else []
        if t["k"] == "yield" and t.get("drop") is not None:
            out.append(t["drop"])
        return out

    @property
    def succ(self):
        if self._succ is None:
            self._succ = [self.normal_succ(b) for b in range(self.n)]
        return self._succ

    @property
    def pred(self):
        if self._pred is None:
            p = [[] for _ in range(self.n)]
            for b in range(self.n):
                for s in self.succ[b]:
                    p[s].append(b)
            self._pred = p
        return self._pred

    def reachable_from(self, start, avoid_blocks=(), avoid_edges=(), unwind=False):
        """Blocks reachable from `start` (a block or iterable) on normal edges."""
        avoid_blocks = set(avoid_blocks)
        avoid_edges = set(avoid_edges)
        starts = [start] if isinstance(start, int) else list(start)
        seen = set()
        dq = deque(s for s in starts if s not in avoid_blocks)
        seen.update(dq)
        while dq:
            b = dq.popleft()
            ss = list(self.succ[b])
            if unwind:
                ss += self.unwind_succ(b)
            for s in ss:
                if s in seen or s in avoid_blocks or (b, s) in avoid_edges:
                    continue
                seen.add(s)
                dq.append(s)
        return seen

    def reachable(self):
        return self.reachable_from(0)

    def return_blocks(self):
        r = self.reachable()
        return [b for b in r if self.term(b)["k"] == "return"]

    def dominators(self):
        """dom[b] = set of blocks dominating b (normal edges, from bb0)."""
        if self._dom is None:
            reach = self.reachable()
            order = sorted(reach)
            dom = {b: set(order) for b in order}
            dom[0] = {0}
            changed = True
            while changed:
                changed = False
                for b in order:
                    if b == 0:
                        continue
                    ps = [p for p in self.pred[b] if p in dom]
                    if not ps:
                        continue
                    new = set.intersection(*(dom[p] for p in ps)) | {b}
                    if new != dom[b]:
                        dom[b] = new
                        changed = True
            self._dom = dom
        return self._dom

    def dominates(self, a, b):
        d = self.dominators()
        return b in d and a in d[b]

    def loc_dominates(self, la, lb):
        """location = (block, index); index == len(stmts) is the terminator."""
        if la[0] == lb[0]:
            return la[1] <= lb[1]
        return self.dominates(la[0], lb[0])

    def edge_dominates(self, edge, b):
        """every path bb0 -> b uses edge (s, t)."""
        if b not in self.reachable():
            return False
        return b not in self.reachable_from(0, avoid_edges=[edge])

    def must_pass(self, a, b, via):
        """every normal path a ->* b passes through a block of `via` (a, b themselves allowed in via)."""
        via = set(via)
        if a in via or b in via:
            return True
        return b not in self.reachable_from(a, avoid_blocks=via)

    def post_dominated_by(self, a, via):
        """every normal path from block a to a return passes through a block in `via`."""
        via = set(via)
        if a in via:
            return True
        r = self.reachable_from(a, avoid_blocks=via)
        return not any(self.term(x)["k"] == "return" for x in r)

    # -- statements --------------------------------------------------------
    def iter_stmts(self, blocks=None):
        """statements of the normally-reachable blocks (cleanup copies excluded) unless `blocks` is given."""
        for b in (sorted(self.reachable()) if blocks is None else blocks):
            for i, s in enumerate(self.blocks[b]["stmts"]):
                yield (b, i), s

    def calls(self, pat=None, blocks=None, reachable_only=True):
        """(block, term) for call terminators whose callee/resolved path matches regex `pat`."""
        reach = self.reachable() if reachable_only else None
        out = []
        for b in (range(self.n) if blocks is None else blocks):
            if reach is not None and b not in reach:
                continue
            t = self.term(b)
            if t["k"] != "call":
                continue
            if pat is None or call_matches(t, pat):
                out.append((b, t))
        return out

    # -- definitions -------------------------------------------------------
    @property
    def defs(self):
        """local -> list of (loc, kind, payload); kind in assign|call ; only whole-local writes.
        partial[local] -> list of (loc, place, rv-or-call)."""
        if self._defs is None:
            whole = defaultdict(list)
            partial = defaultdict(list)
            for b in range(self.n):
                blk = self.blocks[b]
                for i, s in enumerate(blk["stmts"]):
                    if s["k"] == "assign":
                        p = s["place"]
                        if not p["proj"]:
                            whole[p["l"]].append(((b, i), "assign", s["rv"]))
                        else:
                            partial[p["l"]].append(((b, i), p, ("assign", s["rv"])))
                t = blk["term"]
                if t["k"] == "call":
                    p = t["dest"]
                    if not p["proj"]:
                        whole[p["l"]].append(((b, len(blk["stmts"])), "call", t))
                    else:
                        partial[p["l"]].append(((b, len(blk["stmts"])), p, ("call", t)))
                elif t["k"] == "yield":
                    pass
            self._defs = (whole, partial)
        return self._defs

    # -- value provenance expressions ---------------------------------------
    def expr_of_local(self, l, depth=20, stack=()):
        key = (l, depth)
        if key in self._expr_cache:
            return self._expr_cache[key]
        if l in stack:
            return ("cycle", l)
        if 0 < l <= self.arg_count:
            whole, partial = self.defs
            if not whole.get(l):
                e = ("param", l, self.locals[l]["name"])
                self._expr_cache[key] = e
                return e
        if depth <= 0:
            return ("local", l)
        whole, _ = self.defs
        ds = whole.get(l, [])
        if not ds:
            e = ("param", l, self.locals[l]["name"]) if 0 < l <= self.arg_count else ("undef", l)
            self._expr_cache[key] = e
            return e
        es = []
        for loc, kind, payload in ds:
            if kind == "assign":
                es.append(self.expr_of_rv(payload, depth - 1, stack + (l,), loc))
            else:
                es.append(self.expr_of_call(payload, depth - 1, stack + (l,), loc))
        if 0 < l <= self.arg_count:
            es.insert(0, ("param", l, self.locals[l]["name"]))
        if len(es) == 1:
            e = es[0]
        else:
            # third component: where each alternative is assigned (lets a path-sensitive client pick the one on its path)
            locs = tuple(loc for loc, kind, payload in ds)
            if 0 < l <= self.arg_count:
                locs = (None,) + locs
            e = ("phi", tuple(es), locs)
        self._expr_cache[key] = e
        return e

    def expr_of_place(self, p, depth=20, stack=()):
        e = self.expr_of_local(p["l"], depth, stack)
        for el in p["proj"]:
            if el == "deref":
                e = simp_deref(e)
            elif "f" in el:
                # capture forwarding: a field of a closure environment that is built in this very body (an inlined closure) is the
                # captured operand itself - `(*env.buffered_vector)` is `buffered_vector`
                x_ = e
                while x_[0] in ("ref", "deref"):
                    x_ = x_[1]
                if x_[0] == "agg" and x_[1] in ("closure", "coroutine") and isinstance(el.get("f"), int) and el["f"] < len(x_[5]) and not os.environ.get("VERIF_NO_CAPTURE_FORWARD"):
                    e = x_[5][el["f"]]
                    continue
                nm = el["name"]
                if "." in nm or nm.startswith("*"):
                    # closure capture such as `**self.buffered_vector`: the captured place's last field
                    nm = nm.lstrip("*&").split(".")[-1]
                e = simp_field(e, nm)
            elif "dc" in el:
                e = ("downcast", e, el["dc"])
            elif "idx" in el:
                e = ("index", e, self.expr_of_local(el["idx"], depth - 1, stack))
            else:
                e = ("proj?", e)
        return e

    def expr_of_op(self, o, depth=20, stack=()):
        k = o["k"]
        if k in ("copy", "move"):
            return self.expr_of_place(o["place"], depth, stack)
        if k == "const":
            if o.get("fn"):
                return ("fn", o["fn"], tuple(o.get("garg_defs") or ()))
            return ("const", o["ty"], o["val"], o.get("int"))
        return ("unknown", "op")

    def expr_of_rv(self, rv, depth, stack, loc=None):
        k = rv["k"]
        if k == "use":
            return self.expr_of_op(rv["op"], depth, stack)
        if k == "ref":
            return ("ref", self.expr_of_place(rv["place"], depth, stack), rv["mut"])
        if k == "raw":
            return ("ref", self.expr_of_place(rv["place"], depth, stack), "raw")
        if k == "bin":
            return ("bin", rv["op"], self.expr_of_op(rv["l"], depth, stack), self.expr_of_op(rv["r"], depth, stack))
        if k == "un":
            return ("un", rv["op"], self.expr_of_op(rv["x"], depth, stack))
        if k == "discr":
            return ("discr", self.expr_of_place(rv["place"], depth, stack))
        if k == "cast":
            return ("cast", self.expr_of_op(rv["x"], depth, stack), rv["ty"], rv["kind"])
        if k == "agg":
            ops = tuple(self.expr_of_op(o, depth, stack) for o in rv["ops"])
            if rv["of"] == "adt":
                return ("agg", "adt", rv["adt"], rv["variant"], tuple(rv["fields"]), ops, loc)
            if rv["of"] in ("closure", "coroutine", "coroutine_closure"):
                return ("agg", rv["of"], rv["def"], None, (), ops, loc)
            return ("agg", rv["of"], None, None, (), ops, loc)
        if k == "repeat":
            return ("repeat", self.expr_of_op(rv["x"], depth, stack))
        return ("unknown", rv.get("dbg", k))

    def expr_of_call(self, t, depth, stack, loc=None):
        args = tuple(self.expr_of_op(a, depth, stack) for a in t["args"])
        callee = t["callee"]
        if callee is None:
            callee = ("indirect", self.expr_of_op(t["fn_op"], depth, stack))
        return ("call", callee, t.get("resolved"), args, loc, tuple(t.get("garg_defs") or ()))

    # convenience
    def op_expr(self, o):
        return self.expr_of_op(o)

    def place_expr(self, p):
        return self.expr_of_place(p)

    def stmt_at(self, loc):
        b, i = loc
        st = self.blocks[b]["stmts"]
        return st[i] if i < len(st) else self.blocks[b]["term"]

    def span_at(self, loc):
        s = self.stmt_at(loc)
        return s.get("span")

    def line_at(self, loc):
        sp = self.span_at(loc)
        if not sp:
            return self.fn.loc()
        return self.fn.loc(sp)


# ---------------------------------------------------------------------------
# expression helpers

IDENTITY_CALLS = [
    r"<.* as std::clone::Clone>::clone$",
    r"^std::clone::Clone::clone$",
    r"<.* as std::ops::Deref>::deref$",
    r"^std::ops::Deref::deref$",
    r"<.* as std::ops::DerefMut>::deref_mut$",
    r"^std::ops::DerefMut::deref_mut$",
    r"^std::result::Result::<.*>::unwrap$",
    r"^std::result::Result::<.*>::expect$",
    r"^std::option::Option::<.*>::unwrap$",
    r"^std::option::Option::<.*>::expect$",
    r"^std::pin::Pin::<.*>::as_mut$",
    r"^std::pin::Pin::<.*>::get_mut$",
    r"^std::pin::Pin::<.*>::new$",
    r"^std::pin::Pin::<.*>::into_inner$",
    r"^std::pin::Pin::<.*>::new_unchecked$",
    r"^std::pin::Pin::<.*>::get_unchecked_mut$",
    r"<.* as std::convert::Into<.*>>::into$",
    r"<.* as std::convert::From<.*>>::from$",
    r"<.* as std::borrow::Borrow<.*>>::borrow$",
    r"<.* as std::convert::AsRef<.*>>::as_ref$",
    r"<.* as std::borrow::ToOwned>::to_owned$",
    r"^std::sync::Arc::<.*>::clone$",
    r"<.* as std::ops::Try>::branch$",
    r"<.* as std::future::IntoFuture>::into_future$",
]
_IDENT_RE = re.compile("|".join("(?:%s)" % p for p in IDENTITY_CALLS))


PAYLOAD_VARIANTS = ("Some", "Ok", "Err", "Continue", "Break", "Ready")


def call_name(e):
    """callee path of a ('call', ...) expression, full form if available."""
    return e[1] if isinstance(e[1], str) else ""


def is_identity_call(e):
    if e[0] != "call":
        return False
    n = call_name(e)
    return bool(_IDENT_RE.search(n)) or bool(e[2] and _IDENT_RE.search(e[2]))


def call_matches(t, pat):
    """terminator-level: regex against callee, resolved, and full path."""
    for k in ("callee", "resolved"):
        v = t.get(k)
        if v and re.search(pat, v):
            return True
    full = (t.get("extra") or {}).get("full")
    if full and re.search(pat, full):
        return True
    return False


def ecall_matches(e, pat):
    if e[0] != "call":
        return False
    if isinstance(e[1], str) and re.search(pat, e[1]):
        return True
    if e[2] and re.search(pat, e[2]):
        return True
    return False


def simp_deref(e):
    if e[0] == "ref":
        return e[1]
    return ("deref", e)


def simp_field(e, name):
    if e[0] == "agg" and e[1] == "adt" and name in e[4]:
        i = e[4].index(name)
        if i < len(e[5]):
            return e[5][i]
    if e[0] == "agg" and e[1] == "tuple":
        try:
            i = int(name)
            if i < len(e[5]):
                return e[5][i]
        except ValueError:
            pass
    if e[0] == "phi":
        return ("phi", tuple(simp_field(x, name) for x in e[1]))
    return ("field", e, name)


def strip(e, through_calls=True):
    """Peel refs/derefs/casts/identity calls: the value this expression carries."""
    seen = 0
    while seen < 64:
        seen += 1
        k = e[0]
        if k in ("ref", "deref"):
            e = e[1]
        elif k == "cast":
            e = e[1]
        elif k == "call" and through_calls and is_identity_call(e) and e[3]:
            e = e[3][0]
        elif k == "downcast":
            e = e[1]
        elif k == "field" and e[2] == "0" and e[1][0] == "downcast" and e[1][2] in PAYLOAD_VARIANTS:
            # payload of Some/Ok/Continue/Ready: carries the wrapped value
            e = e[1][1]
        else:
            return e
    return e


def walk(e, f, seen=None):
    """pre-order walk over an expression tree; f(e) -> True to stop descending."""
    if seen is None:
        seen = set()
    if id(e) in seen:
        return
    seen.add(id(e))
    if not isinstance(e, tuple):
        return
    if f(e):
        return
    k = e[0]
    if k in ("ref", "deref", "discr", "downcast", "repeat", "proj?"):
        walk(e[1], f, seen)
    elif k == "field":
        walk(e[1], f, seen)
    elif k == "index":
        walk(e[1], f, seen)
        walk(e[2], f, seen)
    elif k == "cast":
        walk(e[1], f, seen)
    elif k == "bin":
        walk(e[2], f, seen)
        walk(e[3], f, seen)
    elif k == "un":
        walk(e[2], f, seen)
    elif k == "agg":
        for x in e[5]:
            walk(x, f, seen)
    elif k == "call":
        if isinstance(e[1], tuple):
            walk(e[1][1], f, seen)
        for x in e[3]:
            walk(x, f, seen)
    elif k == "phi":
        for x in e[1]:
            walk(x, f, seen)


def atoms(e):
    """leaf set: params, consts, calls (by name), fields of self, unknowns."""
    out = []

    def f(x):
        k = x[0]
        if k in ("param", "const", "fn", "undef", "local", "cycle", "unknown"):
            out.append(x)
        return False

    walk(e, f)
    return out


def contains(e, pred):
    found = []

    def f(x):
        if pred(x):
            found.append(x)
            return True
        return False

    walk(e, f)
    return bool(found)


def find_all(e, pred):
    found = []

    def f(x):
        if pred(x):
            found.append(x)
        return False

    walk(e, f)
    return found


def mentions_param(e, idx=None, name=None):
    return contains(e, lambda x: x[0] == "param" and (idx is None or x[1] == idx) and (name is None or x[2] == name))


def mentions_field(e, name):
    return contains(e, lambda x: x[0] == "field" and x[2] == name)


def mentions_call(e, pat):
    return contains(e, lambda x: x[0] == "call" and ecall_matches(x, pat))


def has_arith(e):
    return contains(e, lambda x: x[0] == "bin" and x[1].rstrip("WithOverflow").rstrip("Unchecked") in ("Add", "Sub", "Mul", "Div", "Rem", "Shl", "Shr", "BitAnd", "BitOr", "BitXor")
                    or (x[0] == "call" and isinstance(x[1], str) and re.search(r"::(saturating|wrapping|checked|overflowing)_(add|sub|mul|div)|std::cmp::(min|max)|::abs_diff", x[1])))


def fmt(e, depth=6):
    """short human-readable rendering for evidence."""
    if not isinstance(e, tuple):
        return str(e)
    if depth <= 0:
        return ".."
    k = e[0]
    if k == "param":
        return "%s" % (e[2] or ("arg%d" % e[1]))
    if k == "const":
        return e[2]
    if k == "fn":
        return "fn " + e[1]
    if k == "ref":
        return "&" + fmt(e[1], depth)
    if k == "deref":
        return "*" + fmt(e[1], depth)
    if k == "field":
        return "%s.%s" % (fmt(e[1], depth), e[2])
    if k == "downcast":
        return "(%s as %s)" % (fmt(e[1], depth), e[2])
    if k == "bin":
        return "%s(%s, %s)" % (e[1], fmt(e[2], depth - 1), fmt(e[3], depth - 1))
    if k == "un":
        return "%s(%s)" % (e[1], fmt(e[2], depth - 1))
    if k == "discr":
        return "discr(%s)" % fmt(e[1], depth - 1)
    if k == "cast":
        return fmt(e[1], depth)
    if k == "agg":
        if e[1] == "adt":
            return "%s::%s{%s}" % (e[2].split("::")[-1], e[3], ", ".join("%s: %s" % (n, fmt(o, depth - 1)) for n, o in zip(e[4], e[5])))
        if e[1] in ("closure", "coroutine"):
            return "%s<%s>" % (e[1], e[2])
        return "(%s)" % ", ".join(fmt(o, depth - 1) for o in e[5])
    if k == "call":
        n = e[1] if isinstance(e[1], str) else "<indirect>"
        n = re.sub(r"<[^<>]*>", "", n)
        n = re.sub(r"<[^<>]*>", "", n)
        return "%s(%s)" % (n, ", ".join(fmt(a, depth - 1) for a in e[3]))
    if k == "phi":
        return "phi(%s)" % " | ".join(fmt(x, depth - 1) for x in e[1])
    return str(e[:2])


def is_param_named(e, name):
    """a (by-name) reference to a parameter: a real MIR argument, or an upvar of a coroutine/closure body."""
    if e[0] == "param" and e[2] == name:
        return True
    if e[0] == "field" and e[2] == name and e[1][0] == "param" and e[1][1] == 1:
        return True
    if e[0] == "field" and e[2] == name and e[1][0] == "deref" and e[1][1][0] == "param" and e[1][1][1] == 1:
        return True
    return False


def mentions_param_named(e, name):
    return contains(e, lambda x: is_param_named(x, name))


def local_depends_on(body, local, pred, depth=0, seen=None):
    """Does the value held in `local` depend on something satisfying pred - by data through its definitions,
    or through calls that receive `&mut local` (in-place mutation with other arguments)?"""
    if seen is None:
        seen = set()
    if local in seen or depth > 6:
        return False
    seen.add(local)
    e = body.expr_of_local(local)
    if contains(e, pred):
        return True
    # aliases: locals that are moves/copies of this local, and the locals this one was moved from
    whole, _ = body.defs
    for loc, kind, payload in whole.get(local, []):
        if kind == "assign" and payload["k"] == "use" and payload["op"]["k"] in ("move", "copy") and not payload["op"]["place"]["proj"]:
            if local_depends_on(body, payload["op"]["place"]["l"], pred, depth + 1, seen):
                return True
    # in-place mutation through &mut local
    muts = set()
    for loc, s in body.iter_stmts():
        if s["k"] == "assign" and s["rv"]["k"] == "ref" and s["rv"]["mut"] and s["rv"]["place"]["l"] == local and not s["place"]["proj"]:
            muts.add(s["place"]["l"])
    changed = True
    while changed:
        changed = False
        for loc, s in body.iter_stmts():
            if s["k"] == "assign" and not s["place"]["proj"] and s["rv"]["k"] in ("ref", "use"):
                src = s["rv"]["place"] if s["rv"]["k"] == "ref" else (s["rv"]["op"].get("place") if s["rv"]["op"]["k"] in ("move", "copy") else None)
                if src and src["l"] in muts and s["place"]["l"] not in muts:
                    muts.add(s["place"]["l"])
                    changed = True
    for blk, t in body.calls():
        if t["args"] and t["args"][0]["k"] in ("move", "copy") and t["args"][0]["place"]["l"] in muts:
            for a in t["args"][1:]:
                if contains(body.expr_of_op(a), pred):
                    return True
    return False
