"""Edge conditions: what is known to hold when a switch edge is taken.

Facts (all about provenance expressions of facts.py):
  ("cmp", op, A, B)            A op B holds, op in Lt Le Gt Ge Eq Ne (operands stripped of refs/derefs)
  ("variant", X, frozenset)    the enum value X is one of these variants
  ("truth", X, bool)           the boolean expression X has this value (X is a call or an opaque bool)
  ("int", X, value|None)       integer switch: X == value (None: none of the listed values)
"""
import re
from .facts import strip, ecall_matches, call_name

NEG = {"Lt": "Ge", "Ge": "Lt", "Le": "Gt", "Gt": "Le", "Eq": "Ne", "Ne": "Eq"}
SWAP = {"Lt": "Gt", "Gt": "Lt", "Le": "Ge", "Ge": "Le", "Eq": "Eq", "Ne": "Ne"}

CMP_CALLS = [
    (r"(::PartialEq(<.*>)?>?::eq|::cmp::PartialEq::eq)$", "Eq"),
    (r"(::PartialEq(<.*>)?>?::ne|::cmp::PartialEq::ne)$", "Ne"),
    (r"PartialOrd(<.*>)?>?::lt$", "Lt"),
    (r"PartialOrd(<.*>)?>?::le$", "Le"),
    (r"PartialOrd(<.*>)?>?::gt$", "Gt"),
    (r"PartialOrd(<.*>)?>?::ge$", "Ge"),
]

ORDERING_METHODS = {
    "is_lt": "Lt", "is_le": "Le", "is_gt": "Gt", "is_ge": "Ge", "is_eq": "Eq", "is_ne": "Ne",
}


def _is_cmp_call(e):
    """Ord::cmp / PartialOrd::partial_cmp call -> (A, B) or None."""
    if e[0] == "call" and isinstance(e[1], str) and re.search(r"(::Ord>?::cmp|cmp::Ord::cmp|::partial_cmp)$", e[1]) and len(e[3]) == 2:
        return strip(e[3][0]), strip(e[3][1])
    return None


def bool_facts(e, val):
    """facts implied by boolean expression e == val."""
    e0 = e
    # peel copies
    if e[0] == "un" and e[1] == "Not":
        return bool_facts(e[2], not val)
    if e[0] == "call" and isinstance(e[1], str) and re.search(r"ops::Not>?::not$|::ops::Not::not$", e[1]) and e[3]:
        return bool_facts(e[3][0], not val)
    if e[0] == "bin" and e[1] in NEG:
        op = e[1] if val else NEG[e[1]]
        return [("cmp", op, strip(e[2]), strip(e[3]))]
    if e[0] == "call" and isinstance(e[1], str):
        for pat, op in CMP_CALLS:
            if re.search(pat, e[1]) and len(e[3]) == 2:
                o = op if val else NEG[op]
                return [("cmp", o, strip(e[3][0]), strip(e[3][1]))]
        m = re.search(r"std::cmp::Ordering::(is_\w+)$", e[1])
        if m and m.group(1) in ORDERING_METHODS and e[3]:
            ab = _is_cmp_call(strip(e[3][0], through_calls=False))
            if ab:
                op = ORDERING_METHODS[m.group(1)]
                if not val:
                    op = NEG[op]
                return [("cmp", op, ab[0], ab[1])]
        m = re.search(r"Option::<.*>::(is_some|is_none)$", e[1])
        if m and e[3]:
            some = (m.group(1) == "is_some") == val
            return [("variant", strip(e[3][0], through_calls=False), frozenset(["Some" if some else "None"])), ("truth", e0, val)]
        m = re.search(r"Result::<.*>::(is_ok|is_err)$", e[1])
        if m and e[3]:
            ok = (m.group(1) == "is_ok") == val
            return [("variant", strip(e[3][0], through_calls=False), frozenset(["Ok" if ok else "Err"])), ("truth", e0, val)]
        m = re.search(r"Poll::<.*>::(is_ready|is_pending)$", e[1])
        if m and e[3]:
            r = (m.group(1) == "is_ready") == val
            return [("variant", strip(e[3][0], through_calls=False), frozenset(["Ready" if r else "Pending"])), ("truth", e0, val)]
    if e[0] == "phi":
        # a boolean local assigned in several branches (e.g. `a || b` lowering): no single fact
        return [("truth", e0, val)]
    return [("truth", e0, val)]


def switch_info(body, b):
    """Describe the switch terminating block b.
    returns dict(kind=variant|bool|int, subject=expr, edges={succ: [facts]}) or None."""
    t = body.term(b)
    if t["k"] != "switch":
        return None
    on = t["on"]
    edges = {}
    targets = t["targets"]
    otherwise = t["otherwise"]
    # find the defining statement of the switched local when it is a temp
    disc = None
    if on["k"] in ("copy", "move") and not on["place"]["proj"]:
        l = on["place"]["l"]
        whole, _ = body.defs
        ds = whole.get(l, [])
        if len(ds) == 1 and ds[0][1] == "assign" and ds[0][2]["k"] == "discr":
            disc = ds[0][2]
    if disc is not None:
        subj = strip(body.expr_of_place(disc["place"]), through_calls=False)
        names = {v: n for v, n in disc["variants"]} if disc.get("variants") else {}
        by_t = {}
        listed = set()
        for v, bb in targets:
            by_t.setdefault(bb, set()).add(names.get(v, "#%d" % v))
            listed.add(names.get(v, "#%d" % v))
        rest = set(names.values()) - listed
        if otherwise is not None:
            # the otherwise block may be unreachable; still describe
            by_t.setdefault(otherwise, set()).update(rest if rest else set())
        # `?` operator: switch over ControlFlow of Try::branch(X): Continue <=> X is Some/Ok, Break <=> None/Err
        inner = None
        if subj[0] == "call" and isinstance(subj[1], str) and re.search(r"Try>?::branch$", subj[1]) and subj[3]:
            inner = strip(subj[3][0], through_calls=False)
            is_opt = "option::Option" in ((subj[2] or "") + subj[1]) or (inner[0] == "call" and "Option" in (inner[2] or ""))
        for bb, vs in by_t.items():
            facts = [("variant", subj, frozenset(vs))]
            if inner is not None and len(vs) == 1:
                v0 = next(iter(vs))
                if v0 == "Continue":
                    facts.append(("variant", inner, frozenset(["Some"] if is_opt else ["Ok"])))
                elif v0 == "Break":
                    facts.append(("variant", inner, frozenset(["None"] if is_opt else ["Err"])))
            # Ordering from cmp
            ab = _is_cmp_call(strip(body.expr_of_place(disc["place"]), through_calls=False))
            if ab and len(vs) == 1:
                op = {"Less": "Lt", "Equal": "Eq", "Greater": "Gt"}.get(next(iter(vs)))
                if op:
                    facts.append(("cmp", op, ab[0], ab[1]))
            edges[bb] = facts
        return {"kind": "variant", "subject": subj, "edges": edges, "adt": disc.get("adt")}
    e = body.expr_of_op(on)
    ty = None
    if on["k"] in ("copy", "move") and not on["place"]["proj"]:
        ty = body.locals[on["place"]["l"]]["ty"]
    if ty == "bool" or (len(targets) == 1 and targets[0][0] == 0 and _looks_bool(e)):
        by_t = {}
        for v, bb in targets:
            by_t.setdefault(bb, []).extend(bool_facts(e, bool(v)))
        listed = {v for v, _ in targets}
        if otherwise is not None:
            if listed == {0}:
                by_t.setdefault(otherwise, []).extend(bool_facts(e, True))
            elif listed == {1}:
                by_t.setdefault(otherwise, []).extend(bool_facts(e, False))
        return {"kind": "bool", "subject": e, "edges": by_t}
    by_t = {}
    for v, bb in targets:
        by_t.setdefault(bb, []).append(("int", strip(e), v))
        by_t[bb].append(("cmp", "Eq", strip(e), ("const", ty or "int", str(v), v)))
    if otherwise is not None:
        by_t.setdefault(otherwise, []).append(("int", strip(e), None))
        if len(targets) == 1:
            by_t[otherwise].append(("cmp", "Ne", strip(e), ("const", ty or "int", str(targets[0][0]), targets[0][0])))
    return {"kind": "int", "subject": strip(e), "edges": by_t}


def _looks_bool(e):
    if e[0] == "bin" and e[1] in NEG:
        return True
    if e[0] == "un" and e[1] == "Not":
        return True
    return False


def edge_facts(body, s, t):
    info = switch_info(body, s)
    if not info:
        return []
    return info["edges"].get(t, [])


def dominating_facts(body, b, upto_loc=None):
    """All facts of switch edges that dominate block b."""
    out = []
    dom = body.dominators().get(b, set())
    for s in sorted(dom):
        if body.term(s)["k"] != "switch":
            continue
        if s == b:
            continue
        for t in body.succ[s]:
            if body.edge_dominates((s, t), b):
                for f in edge_facts(body, s, t):
                    out.append((s, t, f))
    return out


def cmp_holds(facts, op, pa, pb):
    """Is there a fact establishing A op B where pa(A) and pb(B) (predicates on expressions)?
    Handles operand swap. `facts` are (s, t, fact) triples or bare facts."""
    for f in facts:
        if len(f) == 3 and isinstance(f[2], tuple) and f[2] and f[2][0] in ("cmp", "variant", "truth", "int"):
            f = f[2]
        if f[0] != "cmp":
            continue
        _, o, a, b = f
        if o == op and pa(a) and pb(b):
            return True
        if SWAP[o] == op and pa(b) and pb(a):
            return True
    return False


def bare(facts):
    return [f[2] if (len(f) == 3 and isinstance(f[2], tuple) and f[2] and f[2][0] in ("cmp", "variant", "truth", "int")) else f for f in facts]


def path_edge_facts(body, path, i):
    """facts of the edge path[i] -> path[i+1], path-sensitively: when the switched boolean local is assigned in several
    branches (`opt.map_or(true, |x| x <= y)` after desugaring, `let c = if .. {..} else {..}`), the definition that was
    executed on this path is used instead of the join of all of them."""
    s, t = path[i], path[i + 1]
    fs = edge_facts(body, s, t)
    term = body.term(s)
    if term["k"] != "switch" or term["on"]["k"] not in ("copy", "move") or term["on"]["place"]["proj"]:
        return fs
    if not any(f[0] == "truth" and f[1][0] == "phi" for f in fs):
        return fs
    l = term["on"]["place"]["l"]
    pos = {blk: k for k, blk in enumerate(path[:i + 1])}
    whole, _ = body.defs
    best = None
    for _ in range(4):
        ds = [(pos[loc[0]], loc, kind, payload) for loc, kind, payload in whole.get(l, []) if loc[0] in pos]
        if not ds:
            return fs
        ds.sort(key=lambda x: (x[0], x[1][1]))
        p, loc, kind, payload = ds[-1]
        if kind == "assign" and payload["k"] == "use" and payload["op"]["k"] in ("copy", "move") and not payload["op"]["place"]["proj"]:
            l = payload["op"]["place"]["l"]   # a plain move of another bool local: follow it on the same path
            continue
        best = (loc, kind, payload)
        break
    if best is None:
        return fs
    loc, kind, payload = best
    e = body.expr_of_rv(payload, 10, (), loc) if kind == "assign" else body.expr_of_call(payload, 10, (), loc)
    # which value does this edge stand for?
    val = None
    for f in fs:
        if f[0] == "truth":
            val = f[2]
    if val is None:
        return fs
    if e[0] == "const":
        return [("truth", e, val)] if (str(e[2]).startswith("true") == val or (e[3] is not None and bool(e[3]) == val)) else [("infeasible",)]
    return bool_facts(e, val)
