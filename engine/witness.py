"""Compile-fail witnesses (rustdoc compile_fail doctests with error codes, nightly) + compiling twins."""
import os, re, shutil, subprocess

VERIF = os.path.dirname(os.path.dirname(os.path.abspath(__file__)))
WDIR = os.path.join(VERIF, "witness")
_cache = {}


def _prepare(repo="/repo"):
    lock = os.path.join(repo, "Cargo.lock")
    if os.path.exists(lock):
        shutil.copy(lock, os.path.join(WDIR, "Cargo.lock"))


def run_all(repo="/repo"):
    if "res" in _cache:
        return _cache["res"]
    _prepare(repo)
    env = dict(os.environ)
    env["CARGO_NET_OFFLINE"] = "true"
    env["CARGO_TARGET_DIR"] = os.path.join(VERIF, ".cache", "target", "witness")
    r = subprocess.run(["cargo", "+nightly", "test", "--doc", "--offline", "--", "--test-threads", "16"], cwd=WDIR, env=env,
                       stdout=subprocess.PIPE, stderr=subprocess.STDOUT, text=True, timeout=1800)
    res = {}
    for m in re.finditer(r"^test (\S+) - (\S+) \(line (\d+)\)( - compile fail| - compile)? \.\.\. (\w+)", r.stdout, re.M):
        name = m.group(2)
        kind = "compile_fail" if (m.group(4) or "").strip() == "- compile fail" else "twin"
        res.setdefault(name, []).append({"kind": kind, "line": int(m.group(3)), "result": m.group(5)})
    _cache["res"] = (res, r.returncode, r.stdout)
    return _cache["res"]


def setup():
    if os.path.isdir(WDIR):
        run_all()


def run_for(prop, names, ctx):
    if not os.path.isdir(WDIR):
        return None
    res, code, out = run_all()
    summary = []
    for n in names:
        items = res.get(n)
        if not items:
            ctx.missing("W." + n, "witness doctest %s did not run (cargo exit %s): %s" % (n, code, out[-600:]))
            continue
        for it in items:
            ok = it["result"] == "ok"
            key = "%s:%s" % (n, it["kind"])
            detail = ("client program is rejected by rustc with the expected error code" if it["kind"] == "compile_fail"
                      else "twin differing only in the offending line compiles (no_run)")
            where = "witness/src/lib.rs:%d" % it["line"]
            if ok:
                ctx.holds("W." + n, "witness::" + n, key, where, detail)
            else:
                ctx.violated("W." + n, "witness::" + n, key, where,
                             "doctest %s (%s) result=%s: the type-level guarantee no longer holds" % (n, it["kind"], it["result"]))
            summary.append({"witness": n, **it})
    return summary
