#!/usr/bin/env python3
"""Pretty-print a body from a fact file:  pp.py <facts.json> <fn-path-substring> [built|elab]"""
import json, sys

def place(p):
    s = "_%d" % p["l"]
    for e in p["proj"]:
        if e == "deref": s = "(*%s)" % s
        elif "f" in e: s = "%s.%s" % (s, e["name"])
        elif "dc" in e: s = "(%s as %s)" % (s, e["dc"])
        elif "idx" in e: s = "%s[_%d]" % (s, e["idx"])
        else: s = "%s{%s}" % (s, e)
    return s

def op(o):
    if o["k"] in ("copy", "move"): return ("move " if o["k"] == "move" else "") + place(o["place"])
    if o["k"] == "const":
        if o.get("fn"): return "fn:" + o["fn"]
        return o["val"]
    return str(o)

def rv(r):
    k = r["k"]
    if k == "use": return op(r["op"])
    if k == "ref": return ("&mut " if r["mut"] else "&") + place(r["place"])
    if k == "raw": return "&raw " + place(r["place"])
    if k == "bin": return "%s(%s, %s)" % (r["op"], op(r["l"]), op(r["r"]))
    if k == "un": return "%s(%s)" % (r["op"], op(r["x"]))
    if k == "discr": return "discriminant(%s)" % place(r["place"])
    if k == "cast": return "%s as %s [%s]" % (op(r["x"]), r["ty"], r["kind"])
    if k == "agg":
        if r["of"] == "adt": return "%s::%s{%s}" % (r["adt"], r["variant"], ", ".join("%s: %s" % (f, op(o)) for f, o in zip(r["fields"], r["ops"])))
        if r["of"] in ("closure", "coroutine", "coroutine_closure"): return "%s<%s>[%s]" % (r["of"], r["def"], ", ".join(op(o) for o in r["ops"]))
        return "%s(%s)" % (r["of"], ", ".join(op(o) for o in r["ops"]))
    return str(r)

def pp_body(f, which="built", out=sys.stdout):
    b = f[which]
    w = out.write
    w("fn %s [%s] kind=%s vis=%s\n" % (f["path"], which, f["kind"], f["vis"]))
    if b is None:
        w("  <no body>\n"); return
    for i, l in enumerate(b["locals"]):
        w("  let _%d: %s%s%s\n" % (i, l["ty"], "  // " + l["name"] if l["name"] else "", " (arg)" if 0 < i <= b["arg_count"] else ""))
    for u in b["upvars"]:
        w("  upvar %s = %s\n" % (u["name"], place(u["place"])))
    for i, blk in enumerate(b["blocks"]):
        w("  bb%d%s:\n" % (i, " (cleanup)" if blk["cleanup"] else ""))
        for s in blk["stmts"]:
            if s["k"] == "assign": w("    %s = %s   // L%d%s\n" % (place(s["place"]), rv(s["rv"]), s["span"]["line"], " exp" if s["span"]["exp"] else ""))
            elif s["k"] == "set_discr": w("    discriminant(%s) = %d\n" % (place(s["place"]), s["vi"]))
            elif s["k"] == "fake_read": w("    FakeRead(%s)\n" % place(s["place"]))
        t = blk["term"]; k = t["k"]
        if k == "call":
            w("    %s = call %s(%s) -> bb%s unwind %s   // L%d res=%s\n" % (place(t["dest"]), t["extra"]["full"] or op(t["fn_op"]), ", ".join(op(a) for a in t["args"]), t["target"], t["unwind"], t["span"]["line"], t["resolved"]))
        elif k == "switch":
            w("    switch %s -> %s otherwise bb%d   // L%d\n" % (op(t["on"]), ", ".join("%d:bb%d" % (v, b) for v, b in t["targets"]), t["otherwise"], t["span"]["line"]))
        elif k == "drop": w("    drop(%s) -> bb%d unwind %s\n" % (place(t["place"]), t["target"], t["unwind"]))
        elif k == "goto": w("    goto bb%d\n" % t["target"])
        elif k == "false_edge": w("    falseEdge real bb%d imag bb%d\n" % (t["real"], t["imaginary"]))
        elif k == "false_unwind": w("    falseUnwind real bb%d\n" % t["real"])
        elif k == "assert": w("    assert(%s == %s) -> bb%d   // %s\n" % (op(t["cond"]), t["expected"], t["target"], t["msg"][:40]))
        elif k == "yield": w("    yield %s -> resume bb%d drop %s\n" % (op(t["value"]), t["resume"], t["drop"]))
        else: w("    %s\n" % k)

if __name__ == "__main__":
    d = json.load(open(sys.argv[1]))
    which = sys.argv[3] if len(sys.argv) > 3 else "built"
    for f in d["fns"]:
        if sys.argv[2] in f["path"]:
            pp_body(f, which)
            print()
