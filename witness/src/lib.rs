//! Compile-fail witnesses for the type-level halves of C01, C04, C05, C07, C17 (see DESIGN.md 2.3).
//! Every `compile_fail,E0xxx` block has a compiling twin (`no_run`: compiled, never executed) that differs only in the offending line.

/// W01a: Observable has no DerefMut.
/// ```compile_fail,E0594
/// let mut ob = eyeball::Observable::new(1u8);
/// *ob = 2;
/// ```
/// twin:
/// ```no_run
/// let mut ob = eyeball::Observable::new(1u8);
/// eyeball::Observable::set(&mut ob, 2);
/// assert_eq!(*ob, 2);
/// ```
pub struct W01a;

/// W01b: write guard has no DerefMut.
/// ```compile_fail,E0594
/// let ob = eyeball::SharedObservable::new(1u8);
/// let mut g = ob.write();
/// *g = 2;
/// ```
/// twin:
/// ```no_run
/// let ob = eyeball::SharedObservable::new(1u8);
/// let mut g = ob.write();
/// eyeball::ObservableWriteGuard::set(&mut g, 2);
/// assert_eq!(*g, 2);
/// ```
pub struct W01b;

/// W04: unique Observable: cannot set while a shared borrow of the value is alive.
/// ```compile_fail,E0502
/// let mut ob = eyeball::Observable::new(1u8);
/// let r: &u8 = eyeball::Observable::get(&ob);
/// eyeball::Observable::set(&mut ob, 2);
/// assert_eq!(*r, 1);
/// ```
/// twin:
/// ```no_run
/// let mut ob = eyeball::Observable::new(1u8);
/// let r: &u8 = eyeball::Observable::get(&ob);
/// assert_eq!(*r, 1);
/// eyeball::Observable::set(&mut ob, 2);
/// ```
pub struct W04;

/// W05: ObservableVector has no DerefMut.
/// ```compile_fail,E0596
/// let mut ob = eyeball_im::ObservableVector::<u8>::new();
/// let v: &mut imbl::Vector<u8> = &mut *ob;
/// v.push_back(1);
/// ```
/// twin:
/// ```no_run
/// let mut ob = eyeball_im::ObservableVector::<u8>::new();
/// let v: &imbl::Vector<u8> = &*ob;
/// assert!(v.is_empty());
/// ob.push_back(1);
/// ```
pub struct W05;

/// W07a: vector cannot be observed while a transaction is alive.
/// ```compile_fail,E0502
/// let mut ob = eyeball_im::ObservableVector::<u8>::new();
/// let mut txn = ob.transaction();
/// txn.push_back(1);
/// let n = ob.len();
/// txn.commit();
/// ```
/// twin:
/// ```no_run
/// let mut ob = eyeball_im::ObservableVector::<u8>::new();
/// let mut txn = ob.transaction();
/// txn.push_back(1);
/// let n = txn.len();
/// txn.commit();
/// assert_eq!((n, ob.len()), (1, 1));
/// ```
pub struct W07a;

/// W07b: cannot subscribe while a transaction is alive.
/// ```compile_fail,E0502
/// let mut ob = eyeball_im::ObservableVector::<u8>::new();
/// let mut txn = ob.transaction();
/// let sub = ob.subscribe();
/// txn.commit();
/// ```
pub struct W07b;

/// W07c: VectorSubscriber is not Clone.
/// ```compile_fail,E0599
/// let ob = eyeball_im::ObservableVector::<u8>::new();
/// let sub = ob.subscribe();
/// let sub2 = sub.clone();
/// ```
/// twin:
/// ```no_run
/// let ob = eyeball_im::ObservableVector::<u8>::new();
/// let sub = ob.subscribe();
/// let sub2 = ob.subscribe();
/// ```
pub struct W07c;

/// W07d: sender is private.
/// ```compile_fail,E0616
/// let ob = eyeball_im::ObservableVector::<u8>::new();
/// let _s = &ob.sender;
/// ```
pub struct W07d;

/// W07e: transaction has no DerefMut.
/// ```compile_fail,E0596
/// let mut ob = eyeball_im::ObservableVector::<u8>::new();
/// let mut txn = ob.transaction();
/// let v: &mut imbl::Vector<u8> = &mut *txn;
/// ```
pub struct W07e;

/// W17: two entries cannot be alive at once.
/// ```compile_fail,E0499
/// let mut ob = eyeball_im::ObservableVector::<u8>::from(imbl::vector![1, 2]);
/// let mut entries = ob.entries();
/// let a = entries.next();
/// let b = entries.next();
/// drop(a);
/// ```
/// twin:
/// ```no_run
/// let mut ob = eyeball_im::ObservableVector::<u8>::from(imbl::vector![1, 2]);
/// let mut entries = ob.entries();
/// let a = entries.next();
/// drop(a);
/// let b = entries.next();
/// ```
pub struct W17;

/// W03: a write guard keeps the SharedObservable borrowed: it cannot be dropped meanwhile.
/// ```compile_fail,E0505
/// let ob = eyeball::SharedObservable::new(1u8);
/// let g = ob.write();
/// drop(ob);
/// drop(g);
/// ```
pub struct W03;
