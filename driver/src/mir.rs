//! MIR body -> JSON.

use crate::json::J;
use crate::{def_path, obj, span_json};
use rustc_hir::def_id::{DefId, LocalDefId};

use rustc_middle::mir::*;
use rustc_middle::ty::{self, GenericArgsRef, Instance, Ty, TyCtxt, TypingEnv};

fn ty_s<'tcx>(t: Ty<'tcx>) -> String {
    ty::print::with_no_trimmed_paths!(format!("{}", t))
}

struct Cx<'a, 'tcx> {
    tcx: TyCtxt<'tcx>,
    body: &'a Body<'tcx>,
    owner: LocalDefId,
    typing_env: TypingEnv<'tcx>,
}

pub fn body_json<'tcx>(tcx: TyCtxt<'tcx>, owner: LocalDefId, body: &Body<'tcx>) -> J {
    let cx = Cx { tcx, body, owner, typing_env: TypingEnv::post_analysis(tcx, owner.to_def_id()) };
    let mut locals = Vec::new();
    let mut names: Vec<Option<String>> = vec![None; body.local_decls.len()];
    let mut upvar_debug = Vec::new();
    for vdi in &body.var_debug_info {
        if let VarDebugInfoContents::Place(p) = &vdi.value {
            if p.projection.is_empty() {
                names[p.local.as_usize()] = Some(vdi.name.to_string());
            } else {
                upvar_debug.push(obj! {
                    "name": J::s(vdi.name.to_string()),
                    "place": cx.place(p)
                });
            }
        }
    }
    for (l, decl) in body.local_decls.iter_enumerated() {
        locals.push(obj! {
            "ty": J::s(ty_s(decl.ty)),
            "name": J::opt_s(names[l.as_usize()].clone()),
            "user": J::Bool(names[l.as_usize()].is_some()),
            "mut": J::Bool(decl.mutability.is_mut())
        });
    }
    let mut blocks = Vec::new();
    for (_bb, data) in body.basic_blocks.iter_enumerated() {
        let mut stmts = Vec::new();
        for st in &data.statements {
            if let Some(j) = cx.stmt(st) {
                stmts.push(j);
            }
        }
        let term = cx.term(data.terminator());
        blocks.push(obj! {
            "cleanup": J::Bool(data.is_cleanup),
            "stmts": J::Arr(stmts),
            "term": term
        });
    }
    // closure / coroutine captures
    let mut captures = Vec::new();
    let did = owner.to_def_id();
    if tcx.is_closure_like(did) {
        for c in tcx.closure_captures(owner) {
            captures.push(obj! {
                "name": J::s(c.to_string(tcx)),
                "var": J::s(c.var_ident.name.to_string()),
                "by_ref": J::Bool(c.is_by_ref())
            });
        }
    }
    obj! {
        "arg_count": J::n(body.arg_count),
        "locals": J::Arr(locals),
        "upvars": J::Arr(upvar_debug),
        "captures": J::Arr(captures),
        "blocks": J::Arr(blocks)
    }
}

impl<'a, 'tcx> Cx<'a, 'tcx> {
    fn place(&self, p: &Place<'tcx>) -> J {
        let mut proj = Vec::new();
        let mut pty = PlaceTy::from_ty(self.body.local_decls[p.local].ty);
        for elem in p.projection.iter() {
            let j = match elem {
                ProjectionElem::Deref => J::s("deref"),
                ProjectionElem::Field(f, fty) => {
                    let name = self.field_name(pty, f.as_usize());
                    obj! { "f": J::n(f.as_usize()), "name": J::s(name), "ty": J::s(ty_s(fty)) }
                }
                ProjectionElem::Downcast(name, vidx) => {
                    let n = match name {
                        Some(s) => s.to_string(),
                        None => format!("{}", vidx.as_usize()),
                    };
                    obj! { "dc": J::s(n), "vi": J::n(vidx.as_usize()) }
                }
                ProjectionElem::Index(l) => obj! { "idx": J::n(l.as_usize()) },
                ProjectionElem::ConstantIndex { offset, from_end, .. } => {
                    obj! { "cidx": J::Num(offset as i64), "from_end": J::Bool(from_end) }
                }
                other => obj! { "other": J::s(format!("{:?}", other)) },
            };
            proj.push(j);
            pty = pty.projection_ty(self.tcx, elem);
        }
        obj! { "l": J::n(p.local.as_usize()), "proj": J::Arr(proj) }
    }

    fn field_name(&self, pty: PlaceTy<'tcx>, f: usize) -> String {
        match pty.ty.kind() {
            ty::Adt(adt, _) => {
                let v = match pty.variant_index {
                    Some(v) => v,
                    None => rustc_abi::FIRST_VARIANT,
                };
                if adt.is_enum() && pty.variant_index.is_none() {
                    return format!("{}", f);
                }
                let var = adt.variant(v);
                var.fields
                    .iter()
                    .nth(f)
                    .map(|fd| fd.name.to_string())
                    .unwrap_or_else(|| format!("{}", f))
            }
            ty::Closure(def, _) | ty::Coroutine(def, _) | ty::CoroutineClosure(def, _) => {
                if let Some(l) = def.as_local() {
                    let caps = self.tcx.closure_captures(l);
                    if let Some(c) = caps.get(f) {
                        return c.to_string(self.tcx);
                    }
                }
                format!("{}", f)
            }
            _ => format!("{}", f),
        }
    }

    fn operand(&self, op: &Operand<'tcx>) -> J {
        match op {
            Operand::Copy(p) => obj! { "k": J::s("copy"), "place": self.place(p) },
            Operand::Move(p) => obj! { "k": J::s("move"), "place": self.place(p) },
            Operand::Constant(c) => {
                let t = c.const_.ty();
                let mut fn_path = J::Null;
                let mut closure_defs = Vec::new();
                if let ty::FnDef(did, args) = t.kind() {
                    fn_path = J::s(def_path(self.tcx, *did));
                    closure_defs = self.garg_defs(args);
                }
                let mut int = J::Null;
                if let Some(sc) = c.const_.try_eval_scalar_int(self.tcx, self.typing_env) {
                    if t.is_integral() || t.is_bool() || t.is_char() {
                        let bits = sc.to_bits_unchecked();
                        if bits <= i64::MAX as u128 {
                            int = J::Num(bits as i64);
                        } else {
                            int = J::s(format!("{}", bits));
                        }
                    }
                }
                obj! {
                    "k": J::s("const"),
                    "ty": J::s(ty_s(t)),
                    "val": J::s(ty::print::with_no_trimmed_paths!(format!("{}", c.const_))),
                    "int": int,
                    "fn": fn_path,
                    "garg_defs": J::Arr(closure_defs)
                }
            }
            #[allow(unreachable_patterns)]
            other => obj! { "k": J::s("other"), "dbg": J::s(format!("{:?}", other)) },
        }
    }

    fn garg_defs(&self, args: GenericArgsRef<'tcx>) -> Vec<J> {
        let mut v = Vec::new();
        for a in args.iter() {
            let mut j = J::Null;
            if let Some(t) = a.as_type() {
                let inner = t.peel_refs();
                match inner.kind() {
                    ty::Closure(d, _) | ty::Coroutine(d, _) | ty::CoroutineClosure(d, _) => {
                        j = J::s(def_path(self.tcx, *d));
                    }
                    ty::FnDef(d, _) => {
                        j = J::s(def_path(self.tcx, *d));
                    }
                    _ => {}
                }
            }
            v.push(j);
        }
        v
    }

    fn rvalue(&self, rv: &Rvalue<'tcx>) -> J {
        match rv {
            Rvalue::Use(op, _) => obj! { "k": J::s("use"), "op": self.operand(op) },
            Rvalue::Ref(_, bk, p) => {
                let m = matches!(bk, BorrowKind::Mut { .. });
                obj! { "k": J::s("ref"), "mut": J::Bool(m), "place": self.place(p) }
            }
            Rvalue::RawPtr(k, p) => {
                obj! { "k": J::s("raw"), "kind": J::s(format!("{:?}", k)), "place": self.place(p) }
            }
            Rvalue::BinaryOp(op, ops) => {
                let (l, r) = &**ops;
                obj! {
                    "k": J::s("bin"),
                    "op": J::s(format!("{:?}", op)),
                    "l": self.operand(l),
                    "r": self.operand(r)
                }
            }
            Rvalue::UnaryOp(op, x) => {
                obj! { "k": J::s("un"), "op": J::s(format!("{:?}", op)), "x": self.operand(x) }
            }
            Rvalue::Discriminant(p) => {
                let pt = p.ty(&self.body.local_decls, self.tcx).ty;
                let mut variants = Vec::new();
                let mut adt_path = J::Null;
                if let ty::Adt(adt, _) = pt.kind() {
                    adt_path = J::s(def_path(self.tcx, adt.did()));
                    if adt.is_enum() {
                        for (vi, d) in adt.discriminants(self.tcx) {
                            let bits = d.val;
                            variants.push(J::Arr(vec![
                                if bits <= i64::MAX as u128 { J::Num(bits as i64) } else { J::s(format!("{}", bits)) },
                                J::s(adt.variant(vi).name.to_string()),
                            ]));
                        }
                    }
                }
                obj! { "k": J::s("discr"), "place": self.place(p), "adt": adt_path, "variants": J::Arr(variants) }
            }
            Rvalue::Cast(kind, x, t) => {
                obj! {
                    "k": J::s("cast"),
                    "kind": J::s(format!("{:?}", kind)),
                    "x": self.operand(x),
                    "ty": J::s(ty_s(*t))
                }
            }
            Rvalue::CopyForDeref(p) => {
                obj! { "k": J::s("use"), "op": obj!{ "k": J::s("copy"), "place": self.place(p) } }
            }
            Rvalue::Repeat(x, _) => obj! { "k": J::s("repeat"), "x": self.operand(x) },
            Rvalue::Aggregate(kind, ops) => {
                let opsj: Vec<J> = ops.iter().map(|o| self.operand(o)).collect();
                match &**kind {
                    AggregateKind::Adt(did, vidx, _args, _, active_field) => {
                        let adt = self.tcx.adt_def(*did);
                        let var = adt.variant(*vidx);
                        let fields: Vec<J> = match active_field {
                            Some(f) => vec![J::s(
                                var.fields.iter().nth(f.as_usize()).map(|x| x.name.to_string()).unwrap_or_default(),
                            )],
                            None => var.fields.iter().map(|f| J::s(f.name.to_string())).collect(),
                        };
                        obj! {
                            "k": J::s("agg"),
                            "of": J::s("adt"),
                            "adt": J::s(def_path(self.tcx, *did)),
                            "variant": J::s(var.name.to_string()),
                            "fields": J::Arr(fields),
                            "ops": J::Arr(opsj)
                        }
                    }
                    AggregateKind::Tuple => {
                        obj! { "k": J::s("agg"), "of": J::s("tuple"), "ops": J::Arr(opsj) }
                    }
                    AggregateKind::Array(_) => {
                        obj! { "k": J::s("agg"), "of": J::s("array"), "ops": J::Arr(opsj) }
                    }
                    AggregateKind::Closure(did, _) => {
                        obj! { "k": J::s("agg"), "of": J::s("closure"), "def": J::s(def_path(self.tcx, *did)), "ops": J::Arr(opsj) }
                    }
                    AggregateKind::Coroutine(did, _) => {
                        obj! { "k": J::s("agg"), "of": J::s("coroutine"), "def": J::s(def_path(self.tcx, *did)), "ops": J::Arr(opsj) }
                    }
                    AggregateKind::CoroutineClosure(did, _) => {
                        obj! { "k": J::s("agg"), "of": J::s("coroutine_closure"), "def": J::s(def_path(self.tcx, *did)), "ops": J::Arr(opsj) }
                    }
                    other => {
                        obj! { "k": J::s("agg"), "of": J::s("other"), "dbg": J::s(format!("{:?}", other)), "ops": J::Arr(opsj) }
                    }
                }
            }
            other => obj! { "k": J::s("other"), "dbg": J::s(format!("{:?}", other)) },
        }
    }

    fn stmt(&self, st: &Statement<'tcx>) -> Option<J> {
        match &st.kind {
            StatementKind::Assign(b) => {
                let (p, rv) = &**b;
                Some(obj! {
                    "k": J::s("assign"),
                    "place": self.place(p),
                    "rv": self.rvalue(rv),
                    "span": span_json(self.tcx, st.source_info.span)
                })
            }
            StatementKind::SetDiscriminant { place, variant_index } => Some(obj! {
                "k": J::s("set_discr"),
                "place": self.place(place),
                "vi": J::n(variant_index.as_usize()),
                "span": span_json(self.tcx, st.source_info.span)
            }),
            StatementKind::StorageDead(l) => Some(obj! { "k": J::s("dead"), "l": J::n(l.as_usize()) }),
            StatementKind::StorageLive(l) => Some(obj! { "k": J::s("live"), "l": J::n(l.as_usize()) }),
            StatementKind::FakeRead(b) => {
                let (_cause, p) = &**b;
                Some(obj! { "k": J::s("fake_read"), "place": self.place(p) })
            }
            _ => None,
        }
    }

    fn unwind(&self, u: &UnwindAction) -> J {
        match u {
            UnwindAction::Cleanup(bb) => J::n(bb.as_usize()),
            _ => J::Null,
        }
    }

    fn opt_bb(&self, b: &Option<BasicBlock>) -> J {
        match b {
            Some(bb) => J::n(bb.as_usize()),
            None => J::Null,
        }
    }

    fn callee(&self, func: &Operand<'tcx>) -> (J, J, J, J, J, J) {
        // (callee path, generic args, resolved path, resolved_local, trait_method, garg_defs)
        if let Operand::Constant(c) = func {
            if let ty::FnDef(did, args) = c.const_.ty().kind() {
                let path = def_path(self.tcx, *did);
                let gargs: Vec<J> = args
                    .iter()
                    .map(|a| J::s(ty::print::with_no_trimmed_paths!(format!("{}", a))))
                    .collect();
                let trait_method = self.tcx.trait_of_assoc(*did).is_some();
                let (res, res_local) = self.resolve(*did, args);
                let full = ty::print::with_no_trimmed_paths!(self.tcx.def_path_str_with_args(*did, args));
                return (
                    J::s(path),
                    J::Arr(gargs),
                    res,
                    res_local,
                    obj! { "trait_method": J::Bool(trait_method), "full": J::s(full) },
                    J::Arr(self.garg_defs(args)),
                );
            }
        }
        (J::Null, J::Arr(vec![]), J::Null, J::Bool(false), obj! { "trait_method": J::Bool(false), "full": J::Null }, J::Arr(vec![]))
    }

    fn resolve(&self, did: DefId, args: GenericArgsRef<'tcx>) -> (J, J) {
        let r = std::panic::catch_unwind(std::panic::AssertUnwindSafe(|| {
            Instance::try_resolve(self.tcx, self.typing_env, did, args)
        }));
        match r {
            Ok(Ok(Some(inst))) => {
                let rd = inst.def_id();
                (J::s(def_path(self.tcx, rd)), J::Bool(rd.is_local()))
            }
            _ => (J::Null, J::Bool(false)),
        }
    }

    fn term(&self, t: &Terminator<'tcx>) -> J {
        let span = span_json(self.tcx, t.source_info.span);
        match &t.kind {
            TerminatorKind::Goto { target } => {
                obj! { "k": J::s("goto"), "target": J::n(target.as_usize()) }
            }
            TerminatorKind::SwitchInt { discr, targets } => {
                let ts: Vec<J> = targets
                    .iter()
                    .map(|(v, bb)| J::Arr(vec![J::Num(v as i64), J::n(bb.as_usize())]))
                    .collect();
                obj! {
                    "k": J::s("switch"),
                    "on": self.operand(discr),
                    "targets": J::Arr(ts),
                    "otherwise": J::n(targets.otherwise().as_usize()),
                    "span": span
                }
            }
            TerminatorKind::Return => obj! { "k": J::s("return"), "span": span },
            TerminatorKind::Unreachable => obj! { "k": J::s("unreachable") },
            TerminatorKind::UnwindResume => obj! { "k": J::s("resume") },
            TerminatorKind::UnwindTerminate(_) => obj! { "k": J::s("terminate") },
            TerminatorKind::Drop { place, target, unwind, .. } => obj! {
                "k": J::s("drop"),
                "place": self.place(place),
                "target": J::n(target.as_usize()),
                "unwind": self.unwind(unwind),
                "span": span
            },
            TerminatorKind::Call { func, args, destination, target, unwind, fn_span, .. } => {
                let (callee, gargs, resolved, res_local, extra, garg_defs) = self.callee(func);
                let argsj: Vec<J> = args.iter().map(|a| self.operand(&a.node)).collect();
                obj! {
                    "k": J::s("call"),
                    "callee": callee,
                    "gargs": gargs,
                    "garg_defs": garg_defs,
                    "resolved": resolved,
                    "resolved_local": res_local,
                    "extra": extra,
                    "fn_op": self.operand(func),
                    "args": J::Arr(argsj),
                    "dest": self.place(destination),
                    "target": self.opt_bb(target),
                    "unwind": self.unwind(unwind),
                    "span": span_json(self.tcx, *fn_span)
                }
            }
            TerminatorKind::Assert { cond, expected, target, unwind, msg } => obj! {
                "k": J::s("assert"),
                "cond": self.operand(cond),
                "expected": J::Bool(*expected),
                "msg": J::s(format!("{:?}", msg)),
                "target": J::n(target.as_usize()),
                "unwind": self.unwind(unwind),
                "span": span
            },
            TerminatorKind::Yield { value, resume, drop, .. } => obj! {
                "k": J::s("yield"),
                "value": self.operand(value),
                "resume": J::n(resume.as_usize()),
                "drop": self.opt_bb(drop),
                "span": span
            },
            TerminatorKind::CoroutineDrop => obj! { "k": J::s("coroutine_drop") },
            TerminatorKind::FalseEdge { real_target, imaginary_target } => obj! {
                "k": J::s("false_edge"),
                "real": J::n(real_target.as_usize()),
                "imaginary": J::n(imaginary_target.as_usize())
            },
            TerminatorKind::FalseUnwind { real_target, unwind } => obj! {
                "k": J::s("false_unwind"),
                "real": J::n(real_target.as_usize()),
                "unwind": self.unwind(unwind)
            },
            other => obj! { "k": J::s("other"), "dbg": J::s(format!("{:?}", other)), "span": span },
        }
    }
}

#[allow(dead_code)]
fn _unused(_: LocalDefId) {}
