//! Fact extractor for the eyeball verification rules.
//!
//! Injected with RUSTC_WORKSPACE_WRAPPER under `cargo +nightly check`; for every
//! crate whose name starts with `eyeball` it writes one JSON fact file
//! (`$EYEBALL_FACTS_DIR/<crate>.<config>.json`) describing items, impls,
//! function bodies (MIR, twice: source-shaped `built` and drop-elaborated
//! `elab`) and unsafe sites. Everything else is compiled untouched.

#![feature(rustc_private)]

extern crate rustc_abi;
extern crate rustc_driver;
extern crate rustc_hir;
extern crate rustc_interface;
extern crate rustc_middle;
extern crate rustc_session;
extern crate rustc_span;

mod json;
mod mir;

use json::J;
use rustc_driver::{Callbacks, Compilation};
use rustc_hir::def::DefKind;
use rustc_hir::def_id::{DefId, LocalDefId};
use rustc_interface::interface::Compiler;
use rustc_middle::ty::{self, TyCtxt};
use std::collections::BTreeMap;

struct Cb {
    built: BTreeMap<String, J>,
}

fn crate_of_interest(tcx: TyCtxt<'_>) -> Option<String> {
    let name = tcx.crate_name(rustc_hir::def_id::LOCAL_CRATE).to_string();
    if !name.starts_with("eyeball") {
        return None;
    }
    // skip build scripts / tests / benches: only lib targets under src/
    Some(name)
}

pub fn def_path(tcx: TyCtxt<'_>, did: DefId) -> String {
    ty::print::with_no_trimmed_paths!(tcx.def_path_str(did))
}

pub fn span_json(tcx: TyCtxt<'_>, span: rustc_span::Span) -> J {
    let sm = tcx.sess.source_map();
    let exp = span.from_expansion();
    // for expansion spans also give the outermost call site
    let call = if exp { span.source_callsite() } else { span };
    let lo = sm.lookup_char_pos(span.lo());
    let hi = sm.lookup_char_pos(span.hi());
    let file = format!("{}", lo.file.name.prefer_local_unconditionally());
    let clo = sm.lookup_char_pos(call.lo());
    let cfile = format!("{}", clo.file.name.prefer_local_unconditionally());
    obj! {
        "file": J::s(file),
        "line": J::n(lo.line),
        "col": J::n(lo.col.0 + 1),
        "eline": J::n(hi.line),
        "ecol": J::n(hi.col.0 + 1),
        "exp": J::Bool(exp),
        "cfile": J::s(cfile),
        "cline": J::n(clo.line)
    }
}

impl Callbacks for Cb {
    fn after_expansion<'tcx>(&mut self, _c: &Compiler, tcx: TyCtxt<'tcx>) -> Compilation {
        if crate_of_interest(tcx).is_none() {
            return Compilation::Continue;
        }
        for ldid in tcx.hir_body_owners() {
            let kind = tcx.def_kind(ldid);
            if !matches!(
                kind,
                DefKind::Fn | DefKind::AssocFn | DefKind::Closure | DefKind::SyntheticCoroutineBody
            ) {
                continue;
            }
            let steal = &tcx.mir_promoted(ldid).0;
            if steal.is_stolen() {
                continue;
            }
            let body = steal.borrow().clone();
            let j = mir::body_json(tcx, ldid, &body);
            self.built.insert(def_path(tcx, ldid.to_def_id()), j);
        }
        Compilation::Continue
    }

    fn after_analysis<'tcx>(&mut self, _c: &Compiler, tcx: TyCtxt<'tcx>) -> Compilation {
        let Some(krate) = crate_of_interest(tcx) else {
            return Compilation::Continue;
        };
        let dir = match std::env::var("EYEBALL_FACTS_DIR") {
            Ok(d) => d,
            Err(_) => return Compilation::Continue,
        };
        let config = std::env::var("EYEBALL_FACTS_CONFIG").unwrap_or_else(|_| "default".into());
        let nonce = std::env::var("EYEBALL_FACTS_NONCE").unwrap_or_default();

        let mut fns = Vec::new();
        for ldid in tcx.hir_body_owners() {
            let kind = tcx.def_kind(ldid);
            if !matches!(
                kind,
                DefKind::Fn | DefKind::AssocFn | DefKind::Closure | DefKind::SyntheticCoroutineBody
            ) {
                continue;
            }
            let did = ldid.to_def_id();
            let path = def_path(tcx, did);
            let is_coroutine = tcx.is_coroutine(did);
            let elab = if is_coroutine || tcx.is_const_fn(did) && false {
                J::Null
            } else {
                let body = tcx.optimized_mir(did);
                mir::body_json(tcx, ldid, body)
            };
            let built = self.built.remove(&path).unwrap_or(J::Null);
            fns.push(fn_json(tcx, ldid, kind, built, elab));
        }

        let (adts, impls, traits) = items_json(tcx);
        let unsafe_sites = unsafe_sites_json(tcx);

        let features: Vec<J> = std::env::vars()
            .filter(|(k, _)| k.starts_with("CARGO_FEATURE_"))
            .map(|(k, _)| J::s(k["CARGO_FEATURE_".len()..].to_lowercase()))
            .collect();

        let top = obj! {
            "nonce": J::s(nonce),
            "crate": J::s(krate.clone()),
            "config": J::s(config.clone()),
            "features": J::Arr(features),
            "rustc": J::s(option_env!("CFG_VERSION").unwrap_or("nightly")),
            "adts": J::Arr(adts),
            "impls": J::Arr(impls),
            "traits": J::Arr(traits),
            "fns": J::Arr(fns),
            "unsafe_sites": J::Arr(unsafe_sites)
        };
        let mut out = String::with_capacity(1 << 22);
        top.write(&mut out);
        let file = format!("{}/{}.{}.json", dir, krate, config);
        let tmp = format!("{}.tmp{}", file, std::process::id());
        std::fs::write(&tmp, out).expect("write facts");
        std::fs::rename(&tmp, &file).expect("rename facts");
        Compilation::Continue
    }
}

fn vis_str(tcx: TyCtxt<'_>, did: DefId) -> String {
    match tcx.visibility(did) {
        ty::Visibility::Public => "pub".to_string(),
        ty::Visibility::Restricted(m) => {
            if m.is_crate_root() {
                "crate".to_string()
            } else {
                format!("in:{}", def_path(tcx, m))
            }
        }
    }
}

fn fn_json<'tcx>(tcx: TyCtxt<'tcx>, ldid: LocalDefId, kind: DefKind, built: J, elab: J) -> J {
    let did = ldid.to_def_id();
    let path = def_path(tcx, did);
    let kind_s = match kind {
        DefKind::Fn => "fn",
        DefKind::AssocFn => "assoc",
        DefKind::Closure => {
            if tcx.is_coroutine(did) {
                "coroutine"
            } else {
                "closure"
            }
        }
        _ => "other",
    };
    let parent = tcx.opt_parent(did).map(|p| def_path(tcx, p));
    let mut vis = J::Null;
    let mut sig = J::Null;
    let mut impl_of = J::Null;
    let mut impl_trait = J::Null;
    let mut self_ty = J::Null;
    let mut is_async = false;
    let mut track_caller = false;
    if matches!(kind, DefKind::Fn | DefKind::AssocFn) {
        vis = J::s(vis_str(tcx, did));
        let fs = tcx.fn_sig(did).instantiate_identity().skip_normalization().skip_binder();
        let inputs: Vec<J> = fs
            .inputs()
            .iter()
            .map(|t| J::s(ty::print::with_no_trimmed_paths!(format!("{}", t))))
            .collect();
        let output = ty::print::with_no_trimmed_paths!(format!("{}", fs.output()));
        sig = obj! { "inputs": J::Arr(inputs), "output": J::s(output) };
        is_async = tcx.asyncness(did).is_async();
        track_caller = tcx.codegen_fn_attrs(did).flags.contains(
            rustc_middle::middle::codegen_fn_attrs::CodegenFnAttrFlags::TRACK_CALLER,
        );
        if kind == DefKind::AssocFn {
            if let Some(p) = tcx.opt_parent(did) {
                if let DefKind::Impl { of_trait } = tcx.def_kind(p) {
                    impl_of = J::s(def_path(tcx, p));
                    let st = tcx.type_of(p).instantiate_identity().skip_normalization();
                    self_ty = J::s(ty::print::with_no_trimmed_paths!(format!("{}", st)));
                    if of_trait {
                        let tr = tcx.impl_trait_ref(p).instantiate_identity().skip_normalization();
                        impl_trait = J::s(def_path(tcx, tr.def_id));
                    }
                }
            }
        }
    }
    let name = tcx.opt_item_name(did).map(|s| s.to_string());
    obj! {
        "path": J::s(path),
        "name": J::opt_s(name),
        "kind": J::s(kind_s),
        "parent": J::opt_s(parent),
        "vis": vis,
        "sig": sig,
        "is_async": J::Bool(is_async),
        "track_caller": J::Bool(track_caller),
        "impl_of": impl_of,
        "impl_trait": impl_trait,
        "self_ty": self_ty,
        "span": span_json(tcx, tcx.def_span(did)),
        "built": built,
        "elab": elab
    }
}

fn items_json<'tcx>(tcx: TyCtxt<'tcx>) -> (Vec<J>, Vec<J>, Vec<J>) {
    let mut adts = Vec::new();
    let mut impls = Vec::new();
    let mut traits = Vec::new();
    for ldid in tcx.hir_crate_items(()).definitions() {
        let did = ldid.to_def_id();
        match tcx.def_kind(did) {
            DefKind::Struct | DefKind::Enum | DefKind::Union => {
                let adt = tcx.adt_def(did);
                let mut variants = Vec::new();
                for v in adt.variants() {
                    let mut fields = Vec::new();
                    for f in &v.fields {
                        let fty = tcx.type_of(f.did).instantiate_identity().skip_normalization();
                        fields.push(obj! {
                            "name": J::s(f.name.to_string()),
                            "ty": J::s(ty::print::with_no_trimmed_paths!(format!("{}", fty))),
                            "vis": J::s(match f.vis {
                                ty::Visibility::Public => "pub".to_string(),
                                ty::Visibility::Restricted(m) => if m.is_crate_root() {"crate".to_string()} else {format!("in:{}", def_path(tcx, m))},
                            })
                        });
                    }
                    variants.push(obj! { "name": J::s(v.name.to_string()), "fields": J::Arr(fields) });
                }
                adts.push(obj! {
                    "path": J::s(def_path(tcx, did)),
                    "kind": J::s(if adt.is_enum() { "enum" } else if adt.is_union() { "union" } else { "struct" }),
                    "vis": J::s(vis_str(tcx, did)),
                    "span": span_json(tcx, tcx.def_span(did)),
                    "variants": J::Arr(variants)
                });
            }
            DefKind::Impl { of_trait } => {
                let st = tcx.type_of(did).instantiate_identity().skip_normalization();
                let mut trait_path = J::Null;
                let mut trait_full = J::Null;
                let mut is_unsafe = false;
                if of_trait {
                    let tr = tcx.impl_trait_ref(did).instantiate_identity().skip_normalization();
                    trait_path = J::s(def_path(tcx, tr.def_id));
                    trait_full = J::s(ty::print::with_no_trimmed_paths!(format!("{}", tr)));
                    is_unsafe = tcx.trait_def(tr.def_id).safety.is_unsafe();
                }
                let mut assoc_types = Vec::new();
                let mut fns = Vec::new();
                for item in tcx.associated_items(did).in_definition_order() {
                    match item.kind {
                        ty::AssocKind::Type { .. } => {
                            let t = tcx.type_of(item.def_id).instantiate_identity().skip_normalization();
                            assoc_types.push(obj! {
                                "name": J::s(item.name().to_string()),
                                "ty": J::s(ty::print::with_no_trimmed_paths!(format!("{}", t)))
                            });
                        }
                        ty::AssocKind::Fn { .. } => {
                            fns.push(J::s(def_path(tcx, item.def_id)));
                        }
                        _ => {}
                    }
                }
                let mut bounds = Vec::new();
                for (pred, _) in tcx.predicates_of(did).predicates.iter() {
                    bounds.push(J::s(ty::print::with_no_trimmed_paths!(format!("{}", pred))));
                }
                impls.push(obj! {
                    "path": J::s(def_path(tcx, did)),
                    "bounds": J::Arr(bounds),
                    "trait": trait_path,
                    "trait_full": trait_full,
                    "self_ty": J::s(ty::print::with_no_trimmed_paths!(format!("{}", st))),
                    "unsafe": J::Bool(is_unsafe),
                    "span": span_json(tcx, tcx.def_span(did)),
                    "assoc_types": J::Arr(assoc_types),
                    "fns": J::Arr(fns)
                });
            }
            DefKind::Trait => {
                traits.push(obj! {
                    "path": J::s(def_path(tcx, did)),
                    "vis": J::s(vis_str(tcx, did))
                });
            }
            _ => {}
        }
    }
    (adts, impls, traits)
}

// ---------------------------------------------------------------------------
// unsafe sites (HIR)

struct UnsafeVisitor<'tcx> {
    tcx: TyCtxt<'tcx>,
    out: Vec<J>,
    owner: Vec<String>,
}

impl<'tcx> rustc_hir::intravisit::Visitor<'tcx> for UnsafeVisitor<'tcx> {
    type NestedFilter = rustc_middle::hir::nested_filter::All;

    fn maybe_tcx(&mut self) -> Self::MaybeTyCtxt {
        self.tcx
    }

    fn visit_item(&mut self, item: &'tcx rustc_hir::Item<'tcx>) {
        let did = item.owner_id.to_def_id();
        self.owner.push(def_path(self.tcx, did));
        if let rustc_hir::ItemKind::Impl(imp) = &item.kind {
            if let Some(tr) = imp.of_trait {
                if tr.safety.is_unsafe() {
                    self.out.push(obj! {
                        "kind": J::s("impl"),
                        "user": J::Bool(true),
                        "in": J::s(def_path(self.tcx, did)),
                        "span": span_json(self.tcx, item.span)
                    });
                }
            }
        }
        if let rustc_hir::ItemKind::Fn { sig, .. } = &item.kind {
            if sig.header.is_unsafe() {
                self.out.push(obj! {
                    "kind": J::s("fn"),
                    "user": J::Bool(true),
                    "in": J::s(def_path(self.tcx, did)),
                    "span": span_json(self.tcx, item.span)
                });
            }
        }
        rustc_hir::intravisit::walk_item(self, item);
        self.owner.pop();
    }

    fn visit_impl_item(&mut self, item: &'tcx rustc_hir::ImplItem<'tcx>) {
        let did = item.owner_id.to_def_id();
        self.owner.push(def_path(self.tcx, did));
        if let rustc_hir::ImplItemKind::Fn(sig, _) = &item.kind {
            if sig.header.is_unsafe() {
                self.out.push(obj! {
                    "kind": J::s("fn"),
                    "user": J::Bool(true),
                    "in": J::s(def_path(self.tcx, did)),
                    "span": span_json(self.tcx, item.span)
                });
            }
        }
        rustc_hir::intravisit::walk_impl_item(self, item);
        self.owner.pop();
    }

    fn visit_block(&mut self, b: &'tcx rustc_hir::Block<'tcx>) {
        if let rustc_hir::BlockCheckMode::UnsafeBlock(src) = b.rules {
            let user = matches!(src, rustc_hir::UnsafeSource::UserProvided);
            self.out.push(obj! {
                "kind": J::s("block"),
                "user": J::Bool(user),
                "in": J::s(self.owner.last().cloned().unwrap_or_default()),
                "span": span_json(self.tcx, b.span)
            });
        }
        rustc_hir::intravisit::walk_block(self, b);
    }
}

fn unsafe_sites_json<'tcx>(tcx: TyCtxt<'tcx>) -> Vec<J> {
    let mut v = UnsafeVisitor { tcx, out: Vec::new(), owner: Vec::new() };
    tcx.hir_walk_toplevel_module(&mut v);
    v.out
}

fn main() {
    let mut args: Vec<String> = std::env::args().collect();
    // RUSTC_WORKSPACE_WRAPPER: argv[1] is the real rustc path
    if args.len() > 1 && (args[1].ends_with("rustc") || args[1].contains("/rustc")) {
        args.remove(1);
    }
    let mut cb = Cb { built: BTreeMap::new() };
    rustc_driver::run_compiler(&args, &mut cb);
}
