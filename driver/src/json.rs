//! Minimal JSON value + writer (no dependencies).

use std::fmt::Write;

#[derive(Clone, Debug)]
pub enum J {
    Null,
    Bool(bool),
    Num(i64),
    Str(String),
    Arr(Vec<J>),
    Obj(Vec<(&'static str, J)>),
}

impl J {
    pub fn s(x: impl Into<String>) -> J {
        J::Str(x.into())
    }
    pub fn opt_s(x: Option<String>) -> J {
        match x {
            Some(s) => J::Str(s),
            None => J::Null,
        }
    }
    pub fn n(x: usize) -> J {
        J::Num(x as i64)
    }
    pub fn write(&self, out: &mut String) {
        match self {
            J::Null => out.push_str("null"),
            J::Bool(b) => out.push_str(if *b { "true" } else { "false" }),
            J::Num(n) => {
                let _ = write!(out, "{}", n);
            }
            J::Str(s) => write_str(s, out),
            J::Arr(v) => {
                out.push('[');
                for (i, x) in v.iter().enumerate() {
                    if i > 0 {
                        out.push(',');
                    }
                    x.write(out);
                }
                out.push(']');
            }
            J::Obj(v) => {
                out.push('{');
                for (i, (k, x)) in v.iter().enumerate() {
                    if i > 0 {
                        out.push(',');
                    }
                    write_str(k, out);
                    out.push(':');
                    x.write(out);
                }
                out.push('}');
            }
        }
    }
}

fn write_str(s: &str, out: &mut String) {
    out.push('"');
    for c in s.chars() {
        match c {
            '"' => out.push_str("\\\""),
            '\\' => out.push_str("\\\\"),
            '\n' => out.push_str("\\n"),
            '\r' => out.push_str("\\r"),
            '\t' => out.push_str("\\t"),
            c if (c as u32) < 0x20 => {
                let _ = write!(out, "\\u{:04x}", c as u32);
            }
            c => out.push(c),
        }
    }
    out.push('"');
}

#[macro_export]
macro_rules! obj {
    ($($k:literal : $v:expr),* $(,)?) => {
        $crate::json::J::Obj(vec![$(($k, $v)),*])
    };
}
